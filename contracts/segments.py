"""Contracts for segments.py and query.py (C01, C15, C18)"""
from pyvc.contracts import contract

SEG_REQ = ["wf_env(self.env)", "wf_segment(self, self.env)", "wf_nodes(nodes)"]
SEG_YIELDS = ["implies(det(self.env) and no_pending(nodes), out == apply_segment(self, seq(nodes)))",
              "all(wf_node(n) for n in out)"]

SEG_ENS = ["implies(not no_pending(nodes), not no_pending(result))"]

contract("segments:JSONPathSegment.resolve", abstract=True,
    requires=SEG_REQ, yields=SEG_YIELDS, ensures=SEG_ENS, raises=["JSONPathError"], props=["C01", "C02"])

contract("segments:JSONPathChildSegment.resolve",
    requires=["isinstance(self, JSONPathChildSegment)"] + SEG_REQ, unfold=["wf_segment"],
    yields=SEG_YIELDS, ensures=SEG_ENS,
    loops={1: ["implies(det(self.env), out == child_seg(seq(self.selectors), seq(nodes), i1))", "all(wf_node(n) for n in out)"],
           2: ["implies(det(self.env), out == child_seg(seq(self.selectors), seq(nodes), i1) + flat_sel(seq(self.selectors), seq(nodes)[i1], i2))",
               "all(wf_node(n) for n in out)"]},
    raises=["JSONPathError"], props=["C01", "C13"])

contract("segments:JSONPathRecursiveDescentSegment._visit",
    requires=["isinstance(self, JSONPathRecursiveDescentSegment)", "wf_env(self.env)", "wf_node(node)", "is_int(depth)", "depth >= 1"],
    unfold=["is_json", "wf_env"],
    yields=["out == preorder(node)", "all(wf_node(n) for n in out)"],
    loops={1: ["out == [node] + pre_kids(node, i1)", "all(wf_node(n) for n in out)",
               "depth + mx_kids(node.value, i1) <= self.env.max_recursion_depth", "depth <= self.env.max_recursion_depth"],
           2: ["out == [node] + pre_kids(node, i2)", "all(wf_node(n) for n in out)",
               "depth + mx_kids(node.value, i2) <= self.env.max_recursion_depth", "depth <= self.env.max_recursion_depth"]},
    raises_iff=[("JSONPathRecursionError", "depth + max(cdepth(node.value), 1) - 1 > self.env.max_recursion_depth")],
    lemmas=["mx_kids_monotone", "mx_kids_nonneg"], props=["C01", "C18", "C13"])

contract("segments:JSONPathRecursiveDescentSegment.resolve",
    requires=["isinstance(self, JSONPathRecursiveDescentSegment)"] + SEG_REQ, unfold=["wf_segment", "wf_env"],
    yields=SEG_YIELDS, ensures=SEG_ENS,
    loops={1: ["implies(det(self.env), out == desc_seg(seq(self.selectors), seq(nodes), i1))", "all(wf_node(n) for n in out)"],
           2: ["implies(det(self.env), out == desc_seg(seq(self.selectors), seq(nodes), i1) + child_seg(seq(self.selectors), preorder(seq(nodes)[i1]), i2))",
               "all(wf_node(n) for n in out)"],
           3: ["implies(det(self.env), out == desc_seg(seq(self.selectors), seq(nodes), i1) + child_seg(seq(self.selectors), preorder(seq(nodes)[i1]), i2) + flat_sel(seq(self.selectors), preorder(seq(nodes)[i1])[i2], i3))",
               "all(wf_node(n) for n in out)"]},
    raises=["JSONPathError"], props=["C01", "C18", "C13"])

contract("segments:JSONPathRecursiveDescentSegment._nondeterministic_visit", trusted=True,
    requires=["wf_env(self.env)", "wf_node(root)"],
    yields=["all(wf_node(n) for n in out)"],
    raises=["JSONPathRecursionError"], props=["C17", "C18"],
    note="queue-based random traversal: outside the pyvc subset (deque, while, random.sample over repeated iterators); decided by the bounded choice-tree exploration (C17/C18), assumed here")

contract("query:JSONPathQuery.finditer",
    requires=["wf_env(self.env)", "wf_query(self, self.env)", "is_json(value)"], unfold=["wf_query"],
    defines=["result == finditer_outcome(self, value)"],
    ensures=["wf_nodes(result)",
             "implies(det(self.env) and no_pending(result), seq(result) == query_nodes(seq(self.segments), value))"],
    loops={1: ["wf_nodes(nodes)",
               "implies(det(self.env) and no_pending(nodes), seq(nodes) == apply_segments(seq(self.segments), [root_node(value)], i1))"]},
    raises=[], props=["C01", "C15", "C13"],
    note="defines: finditer(q, v) is a function of (q, v) -- the lazy iterator's outcome (yielded sequence, pending error) is named "
         "finditer_outcome(q, v); that evaluation has no hidden inputs is what the C14 frame contracts establish")

contract("query:JSONPathQuery.find",
    requires=["wf_env(self.env)", "wf_query(self, self.env)", "is_json(value)"],
    ensures=["result == NodeList(seq(finditer_outcome(self, value)))",
             "all_wf_nodes(seq(result))",
             "implies(det(self.env), seq(result) == query_nodes(seq(self.segments), value))"],
    raises_iff=[("JSONPathError", "not no_pending(finditer_outcome(self, value))")],
    props=["C01", "C15", "C13"])

contract("query:JSONPathQuery.find_one",
    requires=["wf_env(self.env)", "wf_query(self, self.env)", "is_json(value)"],
    ensures=["implies(len(seq(finditer_outcome(self, value))) > 0, result == seq(finditer_outcome(self, value))[0])",
             "implies(len(seq(finditer_outcome(self, value))) == 0, is_none(result))"],
    raises_iff=[("JSONPathError", "len(seq(finditer_outcome(self, value))) == 0 and not no_pending(finditer_outcome(self, value))")],
    props=["C15", "C13"])

contract("query:JSONPathQuery.singular_query",
    requires=["wf_query(self, self.env)"], unfold=["wf_query", "wf_segment"],
    ensures=["result == singular(seq(self.segments), len(self.segments))"],
    loops={1: ["singular(seq(self.segments), i1)"]},
    raises=[], props=["C05"])

contract("query:JSONPathQuery.empty",
    requires=["isinstance(self, JSONPathQuery)", "is_tuple(self.segments)"],
    ensures=["result == (len(self.segments) == 0)"], raises=[], props=["C02"])

contract("segments:JSONPathRecursiveDescentSegment._check_depth",
    requires=["isinstance(self, JSONPathRecursiveDescentSegment)", "wf_env(self.env)", "isinstance(node, JSONPathNode)", "is_json(node.value)", "is_int(depth)"],
    unfold=["wf_env", "is_json"],
    raises_iff=[("JSONPathRecursionError", "is_container(node.value) and depth > self.env.max_recursion_depth")],
    props=["C18", "C13"],
    note="the depth test of the nondeterministic traversal: containers only, strictly above the configured limit (the same boundary _visit is proved to have)")

contract("segments:_nondeterministic_children",
    requires=["wf_node(node)"], unfold=["is_json"],
    yields=["implies(is_arr(node.value), out == sel_wild(node))", "all(wf_node(n) for n in out)"],
    loops={1: ["all(wf_node(n) for n in out)"],
           2: ["out == wild_prefix(node, i2)", "all(wf_node(n) for n in out)"]},
    raises=[], props=["C17", "C13"],
    note="arrays: the children in document order (== the RFC wildcard order); objects: a shuffled order -- every output is a well-formed node "
         "(that it is a permutation of the members is decided by the bounded C17 run)")
